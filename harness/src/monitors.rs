//! Property monitors over the *implementation's* observations (results, callbacks, snapshots).
//! They are the search machinery that turns a broken proof or a broken correspondence into a
//! concrete failing history; they are not the proof.  Each hit prints one line
//! `MONITOR property=<id> case=<n> msg=<...>`.
use crate::cachesuite::{Config, Op};
use std::collections::{HashMap, HashSet};
use stretto::verif::CacheSnap;

const NS: u64 = 1_000_000_000;

#[derive(Default)]
pub struct Flags {
    /// total cost always fits, buffer never overflows, validator accepts, no collisions:
    /// the cache must behave as an exact TTL map (C03/C04 oracle)
    pub exact_map: bool,
    pub collisions: bool,
    pub quiescent_profile: bool,
}

pub struct Mon {
    pub case: u64,
    pub cfg: Config,
    pub flags: Flags,
    pub item_size: i64,
    /// oracle TTL map: index -> (value, deadline)
    spec: HashMap<u64, (u64, Option<u64>)>,
    /// value -> (index, conflict) it was written under
    val_key: HashMap<u64, (u64, u64)>,
    /// value -> (explicit cost given, time of insert)
    val_cost: HashMap<u64, i64>,
    accepted: HashSet<u64>,
    cb_count: HashMap<u64, Vec<String>>,
    overwritten: HashSet<u64>,
    /// values that were inserted before the latest clear()/close() call started
    before_clear: HashSet<u64>,
    /// value -> the clear epoch in which it became "inserted before a completed clear()"
    cleared_ok: HashMap<u64, u64>,
    clear_epoch: u64,
    /// per client: the clear epoch when its current operation began
    start_epoch: HashMap<usize, u64>,
    /// per client: was the closed flag already set when its clear() began (then clear is a no-op)
    clear_on_closed: HashSet<usize>,
    /// per client: the values accepted before its clear()/close() call
    at_clear_call: HashMap<usize, Vec<u64>>,
    started_after_close: HashSet<usize>,
    cur_op: HashMap<usize, Op>,
    sent_by: HashMap<usize, Vec<u64>>,
    after_wait: Vec<u64>,
    lookups_since_clear: u64,
    /// lookups that were already in the get buffer when the counters were last cleared
    ring_carry: u64,
    drops_since_clear: u64,
    /// on_evict callbacks for victims and swept entries (not the clear/close drain) since the last clear
    evictions_since_clear: i64,
    /// C02: per key, the values whose insert had returned true; per in-flight remove, the values of
    /// its key written before the remove began; values that a completed remove must have taken out
    written_done: HashMap<u64, Vec<u64>>,
    remove_kills: HashMap<usize, Vec<u64>>,
    dead_values: HashSet<u64>,
    panics_seen: u64,
    pending: Vec<String>,
    any_error: bool,
    closed_ok: bool,
    clear_returned_clean: bool,
    straddled: bool,
    inserted_after_clear: bool,
    pub hits: u64,
    prev: Option<CacheSnap<u64>>,
    evicted_once: HashSet<u64>,
    /// index -> conflict hashes used with it (two different ones = an index collision, finding D9)
    conf_seen: HashMap<u64, HashSet<u64>>,
    in_tick: bool,
    tick_time: u64,
}

fn coster(mode: u8, v: u64) -> i64 {
    match mode {
        0 => 0,
        1 => (v % 5 + 1) as i64,
        _ => 7,
    }
}

impl Mon {
    pub fn new(case: u64, cfg: Config, flags: Flags, item_size: usize) -> Mon {
        Mon {
            case, cfg, flags, item_size: item_size as i64,
            spec: HashMap::new(), val_key: HashMap::new(), val_cost: HashMap::new(), accepted: HashSet::new(),
            cb_count: HashMap::new(), overwritten: HashSet::new(), before_clear: HashSet::new(), cleared_ok: HashMap::new(), clear_epoch: 0, start_epoch: HashMap::new(), clear_on_closed: HashSet::new(), at_clear_call: HashMap::new(), started_after_close: HashSet::new(),
            cur_op: HashMap::new(), sent_by: HashMap::new(), after_wait: Vec::new(), lookups_since_clear: 0, ring_carry: 0, drops_since_clear: 0, evictions_since_clear: 0, written_done: HashMap::new(), remove_kills: HashMap::new(), dead_values: HashSet::new(), panics_seen: crate::sched::PANICS.load(std::sync::atomic::Ordering::SeqCst), pending: Vec::new(),
            any_error: false, closed_ok: false, clear_returned_clean: false, straddled: false, inserted_after_clear: false, hits: 0,
            prev: None, evicted_once: HashSet::new(), conf_seen: HashMap::new(), in_tick: false, tick_time: 0,
        }
    }

    fn hit(&mut self, prop: &str, msg: String) {
        self.hits += 1;
        self.pending.push(format!("MONITOR property={} case={} msg={}", prop, self.case, msg.replace(' ', "_")));
    }

    /// prints the hits collected so far (a case that stalled is run again first: see `discard`)
    pub fn flush(&mut self) {
        for l in self.pending.drain(..) {
            println!("{}", l);
        }
    }

    /// drops the hits of an attempt that is going to be repeated
    pub fn discard(&mut self) {
        self.pending.clear();
    }

    fn entry<'a>(s: &'a CacheSnap<u64>, idx: u64) -> Option<&'a stretto::verif::EntrySnap<u64>> {
        s.store.iter().find(|e| e.index == idx)
    }

    fn charge(s: &CacheSnap<u64>, idx: u64) -> Option<i64> {
        s.policy.key_costs.iter().find(|(k, _)| *k == idx).map(|(_, c)| *c)
    }

    pub fn op_started(&mut self, a: usize, op: &Op, now: u64, closed_flag: bool) {
        self.cur_op.insert(a, op.clone());
        self.start_epoch.insert(a, self.clear_epoch);
        if closed_flag {
            self.clear_on_closed.insert(a);
        } else {
            self.clear_on_closed.remove(&a);
        }
        if self.closed_ok {
            self.started_after_close.insert(a);
        } else {
            self.started_after_close.remove(&a);
        }
        match op {
            Op::Insert { idx, conf, .. } | Op::Get { idx, conf } | Op::GetMutWrite { idx, conf, .. } | Op::GetTtl { idx, conf } | Op::Remove { idx, conf } => {
                self.conf_seen.entry(*idx).or_default().insert(*conf);
            }
            _ => {}
        }
        match op {
            Op::Insert { idx, conf, val, cost, .. } => {
                self.val_key.insert(*val, (*idx, *conf));
                self.val_cost.insert(*val, *cost);
                self.inserted_after_clear = true;
            }
            Op::GetMutWrite { idx, conf, val } => {
                self.val_key.insert(*val, (*idx, *conf));
                self.inserted_after_clear = true;
            }
            Op::Remove { idx, .. } => {
                let v = self.written_done.get(idx).cloned().unwrap_or_default();
                self.remove_kills.insert(a, v);
            }
            Op::Clear | Op::Close => {
                let acc: Vec<u64> = self.accepted.iter().copied().collect();
                for v in &acc {
                    self.before_clear.insert(*v);
                }
                self.at_clear_call.insert(a, acc);
                // a write already in flight when clear() is called may land after it
                self.inserted_after_clear = self.cur_op.iter().any(|(b, o)| *b != a && matches!(o, Op::Insert { .. } | Op::GetMutWrite { .. }));
                self.clear_returned_clean = false;
            }
            _ => {}
        }
        let _ = now;
    }

    /// a client operation returned `res`; `before`/`after` are the snapshots around its last segment
    pub fn op_finished(&mut self, a: usize, res: &str, now: u64, before: &CacheSnap<u64>, after: &CacheSnap<u64>, unchanged: bool) {
        let op = match self.cur_op.remove(&a) {
            Some(o) => o,
            None => return,
        };
        if res == "panic" {
            self.hit("C20", format!("operation panicked in the caller: {}", op.line()));
            return;
        }
        if res == "err" {
            self.any_error = true;
        }
        // C12: a closed cache is inert (for operations that began after close() had returned Ok)
        if self.closed_ok && self.started_after_close.contains(&a) {
            let ok = match &op {
                Op::Insert { .. } => res == "false",
                Op::Get { .. } => res == "get:none",
                Op::GetMutWrite { .. } => res == "getmut:none",
                Op::Remove { .. } | Op::Clear | Op::Wait | Op::Close => res == "ok",
                _ => true,
            };
            if !ok {
                self.hit("C12", format!("after close() returned Ok: {} returned {}", op.line(), res));
            }
            match &op {
                Op::GetTtl { .. } | Op::MaxCost | Op::UpdateMaxCost(_) | Op::Len => {}
                _ => {
                    if !unchanged {
                        self.hit("C12", format!("after close() returned Ok: {} changed the cache state", op.line()));
                    }
                }
            }
        }
        match &op {
            Op::Insert { idx, conf, val, ttl_ns, only, .. } => {
                if res == "true" {
                    self.accepted.insert(*val);
                    self.written_done.entry(*idx).or_default().push(*val);
                    self.sent_by.entry(a).or_default().push(*val);
                    self.inserted_after_clear = true;
                    if self.flags.exact_map {
                        // in-place update or buffered new item: either way the write will apply
                        if !*only || self.spec.contains_key(idx) || Self::entry(before, *idx).is_some() {
                            self.spec.insert(*idx, (*val, if *ttl_ns > 0 { Some(now + *ttl_ns) } else { None }));
                        }
                    }
                } else if res == "false" {
                    if *only && Self::entry(before, *idx).is_none() && !self.closed_ok {
                        // C09: insert_if_present on an absent key leaves everything unchanged
                        if !unchanged {
                            self.hit("C09", format!("insert_if_present on absent key {} changed the cache", idx));
                        }
                    }
                    if !*only && Self::entry(before, *idx).is_none() && !after.closed {
                        self.drops_since_clear += 1;
                    }
                }
                let _ = conf;
            }
            Op::Get { idx, conf } | Op::GetMutWrite { idx, conf, .. } => {
                if !after.closed {
                    self.lookups_since_clear += 1;
                }
                let got: Option<u64> = if res.ends_with(":none") { None } else { res.split(':').nth(1).and_then(|x| x.parse().ok()) };
                if let Some(v) = got {
                    // C02 / C18: the value was written under this very key
                    match self.val_key.get(&v) {
                        Some((i2, c2)) => {
                            if i2 != idx {
                                self.hit("C02", format!("lookup of key {} returned value {} written under key {}", idx, v, i2));
                            } else if *conf != 0 && *c2 != 0 && c2 != conf {
                                self.hit("C18", format!("lookup of ({},{}) returned value {} of the colliding key ({},{})", idx, conf, v, i2, c2));
                            }
                        }
                        None => self.hit("C02", format!("lookup of key {} returned an unknown value {}", idx, v)),
                    }
                    // C08: a value handed to a callback is never returned by a later lookup
                    if self.cb_count.contains_key(&v) {
                        self.hit("C08", format!("lookup returned value {} after it was handed to {}", v, self.cb_count[&v].join("+")));
                    }
                    // C03: nothing is served after its TTL
                    if let Some(e) = Self::entry(before, *idx) {
                        if e.ttl_ns > 0 && now >= e.created_ns + e.ttl_ns {
                            self.hit("C03", format!("key {} served {} ns after its TTL elapsed", idx, now - e.created_ns - e.ttl_ns));
                        }
                    }
                    if let Some(ep) = self.cleared_ok.get(&v) {
                        // only lookups that began after that clear() had returned
                        if *ep <= *self.start_epoch.get(&a).unwrap_or(&0) {
                            self.hit("C11", format!("value {} inserted before a completed clear() is retrievable after it", v));
                        }
                    }
                } else if let Some(e) = Self::entry(before, *idx) {
                    // C03: an entry without TTL never becomes invisible because of time
                    if e.ttl_ns == 0 && (*conf == 0 || e.conflict == *conf) && !before.closed {
                        self.hit("C03", format!("resident key {} without TTL was not served", idx));
                    }
                    if e.ttl_ns > 0 && now < e.created_ns + e.ttl_ns && (*conf == 0 || e.conflict == *conf) && !before.closed {
                        self.hit("C03", format!("key {} hidden {} ns before its TTL elapsed", idx, e.created_ns + e.ttl_ns - now));
                    }
                }
                if self.flags.exact_map && !before.closed {
                    let exp = match self.spec.get(idx) {
                        Some((v, dl)) if dl.map_or(true, |d| now < d) => Some(*v),
                        _ => None,
                    };
                    if exp != got {
                        self.hit("C04", format!("below capacity: lookup of key {} returned {:?}, the TTL map says {:?}", idx, got, exp));
                        if let Some((_, dl)) = self.spec.get(idx) {
                            // the key was written and neither removed nor cleared: the discrepancy is about time
                            let dl = *dl;
                            if got.is_none() {
                                self.hit("C03", format!("key {} written with deadline {:?} is not served at {} although it has not expired", idx, dl, now));
                            } else {
                                self.hit("C03", format!("key {} written with deadline {:?} is still served at {}", idx, dl, now));
                            }
                        }
                    }
                }
                if let (Op::GetMutWrite { val, idx, .. }, Some(old)) = (&op, got) {
                    self.overwritten.insert(old);
                    self.accepted.insert(*val);
                    if self.flags.exact_map {
                        let dl = self.spec.get(idx).and_then(|x| x.1);
                        self.spec.insert(*idx, (*val, dl));
                    }
                }
            }
            Op::GetTtl { idx, conf } => {
                if let Some(e) = Self::entry(before, *idx) {
                    let live = e.ttl_ns == 0 || now < e.created_ns + e.ttl_ns;
                    let matches = *conf == 0 || e.conflict == *conf;
                    let exp = if !(live && matches) {
                        "ttl:none".to_string()
                    } else if e.ttl_ns == 0 {
                        "ttl:inf".to_string()
                    } else {
                        format!("ttl:{}", e.created_ns + e.ttl_ns - now)
                    };
                    if exp != res {
                        self.hit("C03", format!("get_ttl of key {} returned {} but inserted at {} with ttl {} and now {}: expected {}", idx, res, e.created_ns, e.ttl_ns, now, exp));
                    }
                }
                if self.flags.exact_map {
                    let exp = match self.spec.get(idx) {
                        Some((_, None)) => "ttl:inf".to_string(),
                        Some((_, Some(d))) if now < *d => format!("ttl:{}", d - now),
                        _ => "ttl:none".to_string(),
                    };
                    if exp != res {
                        self.hit("C04", format!("below capacity: get_ttl of key {} returned {}, the TTL map says {}", idx, res, exp));
                        if self.spec.contains_key(idx) {
                            self.hit("C03", format!("get_ttl of key {} returned {} but the writes made say {}", idx, res, exp));
                        }
                    }
                }
            }
            Op::Remove { idx, .. } => {
                if self.flags.exact_map && res == "ok" {
                    self.spec.remove(idx);
                }
                // C02: what had been written under this key before the remove() began must be gone once
                // the remove has taken effect (checked at the next quiescent point)
                let kills = self.remove_kills.remove(&a).unwrap_or_default();
                if res == "ok" && !after.closed && !self.closed_ok {
                    self.dead_values.extend(kills);
                }
            }
            Op::Wait => {
                if res == "ok" && !after.closed {
                    // C10: everything this client sent before is applied or discarded
                    // (checked at the next quiescent point: the return of wait() is observed
                    // asynchronously and may fall between a sweep's removal and its on_evict call)
                    let mine = self.sent_by.remove(&a).unwrap_or_default();
                    self.after_wait.extend(mine);
                }
            }
            Op::Clear => {
                if res == "ok" && !self.closed_ok && !self.clear_on_closed.contains(&a) {
                    self.clear_epoch += 1;
                    for v in self.at_clear_call.remove(&a).unwrap_or_default() {
                        self.cleared_ok.entry(v).or_insert(self.clear_epoch);
                    }
                    self.clear_returned_clean = true;
                }
            }
            Op::Close => {
                if res == "ok" {
                    self.closed_ok = true;
                    self.clear_epoch += 1;
                    for v in self.at_clear_call.remove(&a).unwrap_or_default() {
                        self.cleared_ok.entry(v).or_insert(self.clear_epoch);
                    }
                    self.spec.clear();
                }
            }
            _ => {}
        }
    }

    /// callbacks fired during one step
    pub fn callbacks(&mut self, cbs: &[String], before: &CacheSnap<u64>, now: u64, step: &str) {
        for cb in cbs {
            let parts: Vec<&str> = cb.split(':').collect();
            let (kind, v) = match parts[0] {
                "exit" => ("exit", parts[1].parse::<u64>().unwrap_or(0)),
                k => (k, parts[3].parse::<u64>().unwrap_or(0)),
            };
            // C08: exactly one callback per value
            let e = self.cb_count.entry(v).or_default();
            e.push(kind.to_string());
            if e.len() > 1 {
                let l = e.join("+");
                self.hit("C08", format!("value {} was handed to callbacks more than once: {}", v, l));
            }
            if kind == "evict" && !(step.starts_with("pr clear") || step.starts_with("pr stop")) {
                self.evictions_since_clear += 1;
            }
            if kind == "evict" || kind == "reject" {
                let k: u64 = parts[1].parse().unwrap_or(0);
                let cost: i64 = parts[4].parse().unwrap_or(0);
                if kind == "evict" && step.starts_with("pr") && self.in_tick && self.flags.quiescent_profile {
                    // C05: only expired entries are swept, with their value and charged cost
                    if let Some(en) = Self::entry(before, k).or_else(|| self.prev.as_ref().and_then(|p| Self::entry(p, k))) {
                        if en.ttl_ns == 0 || now < en.created_ns + en.ttl_ns {
                            self.hit("C05", format!("cleanup removed key {} which has not expired (ttl {} created {} now {})", k, en.ttl_ns, en.created_ns, now));
                        }
                    }
                }
                // C16: the cost reported equals what was charged: explicit cost (or coster) + overhead
                if let Some(c0) = self.val_cost.get(&v) {
                    let ext = if *c0 == 0 { coster(self.cfg.coster, v) } else { 0 };
                    let exp = c0 + ext + if self.cfg.ignore_internal { 0 } else { self.item_size };
                    let drained = step.starts_with("pr clear") || step.starts_with("pr stop");
                    if cost != exp && !drained && !self.flags.collisions && self.flags.quiescent_profile && self.cfg.validator == 0 {
                        self.hit("C16", format!("{} of value {} reported cost {} but the charge formula gives {}", kind, v, cost, exp));
                    }
                }
            }
        }
    }

    /// C03 / C05, any schedule: the step the sweeper makes from in front of a due key is atomic (it reads
    /// the stored deadline and, if it finds it passed, releases the key's charge before its next
    /// scheduling point).  A charge released in that step therefore tells which entry the sweeper
    /// decided to reclaim: the entry as it was before the step must have a deadline, and it must have passed.
    pub fn sweep_decision(&mut self, before: &CacheSnap<u64>, after: &CacheSnap<u64>, now: u64) {
        for (k, _) in &before.policy.key_costs {
            if after.policy.key_costs.iter().any(|(x, _)| x == k) {
                continue;
            }
            if let Some(e) = Self::entry(before, *k) {
                if e.ttl_ns == 0 {
                    self.hit("C03", format!("key {} was written without TTL (value {}) and the expiry sweep decided to reclaim it at {}", e.index, e.value, now));
                    self.hit("C05", format!("cleanup reclaims key {} which has no TTL (value {})", e.index, e.value));
                } else if now < e.created_ns + e.ttl_ns {
                    self.hit("C05", format!("cleanup reclaims key {} {} ns before its TTL elapses", e.index, e.created_ns + e.ttl_ns - now));
                }
            }
        }
    }

    /// C09, any schedule: the UpdateValidator is honoured by the processor too.  A step of the
    /// processor that leaves an entry resident under the same (index, conflict) with another value has
    /// replaced it (the store write for a queued New item that finds the key resident): the validator
    /// must allow that replacement, and a vetoed one keeps value and TTL.
    pub fn processor_rewrite(&mut self, before: &CacheSnap<u64>, after: &CacheSnap<u64>) {
        for e in &before.store {
            if let Some(x) = after.store.iter().find(|x| x.index == e.index && x.conflict == e.conflict) {
                if x.value != e.value && !(crate::cachesuite::Va(self.cfg.validator)).allows(e.value, x.value) {
                    self.hit("C09", format!("the processor replaced value {} of key {} by {} although the UpdateValidator vetoes that replacement (ttl {} -> {})",
                                            e.value, e.index, x.value, e.ttl_ns, x.ttl_ns));
                }
            }
        }
    }

    pub fn tick_started(&mut self, now: u64) {
        self.in_tick = true;
        self.tick_time = now;
    }

    /// the cache is quiescent: nothing buffered, no client inside an operation, workers idle
    pub fn quiescent(&mut self, s: &CacheSnap<u64>, now: u64, tick_just_done: bool) {
        self.in_tick = false;
        if s.closed {
            self.prev = Some(s.clone());
            return;
        }
        // C10: what a client sent before a wait() that returned Ok has been applied or discarded
        for v in std::mem::take(&mut self.after_wait) {
            let resident = s.store.iter().any(|e| e.value == v);
            let handed = self.cb_count.contains_key(&v) || self.overwritten.contains(&v) || self.before_clear.contains(&v);
            if !resident && !handed {
                self.hit("C10", format!("wait() returned Ok but value {} sent earlier by the same client is neither resident nor handed back", v));
            }
        }
        // C02: nothing written before a completed remove(k) is resident any more
        if !self.flags.collisions {
            for e in &s.store {
                if self.dead_values.contains(&e.value) {
                    self.hit("C02", format!("key {} still holds value {} written before a remove({}) that completed", e.index, e.value, e.index));
                }
            }
        }
        // C01 at cache level: the sum of charges
        let sum: i64 = s.policy.key_costs.iter().map(|(_, c)| *c).sum();
        if sum != s.policy.used {
            self.hit("C01", format!("charged total {} differs from the sum of charges {}", s.policy.used, sum));
        }
        // C06: resident entries and charges agree
        if !self.any_error {
            let a: Vec<u64> = s.store.iter().map(|e| e.index).collect();
            let b: Vec<u64> = s.policy.key_costs.iter().map(|(k, _)| *k).collect();
            if a != b {
                let diff: Vec<u64> = a.iter().filter(|k| !b.contains(k)).chain(b.iter().filter(|k| !a.contains(k))).copied().collect();
                let all_collide = diff.iter().all(|k| self.conf_seen.get(k).map_or(0, |c| c.len()) >= 2);
                self.hit("C06", format!("at quiescence resident keys {:?} differ from charged keys {:?}{}", a, b, if all_collide { " class=index-collision" } else { "" }));
            }
        }
        // C16: the charge of every resident entry follows the formula of the value that is resident
        // (only when the last applied write of that key is the resident value: quiescent profiles)
        if self.flags.quiescent_profile && !self.flags.collisions && self.cfg.validator == 0 {
            for e in &s.store {
                if let (Some(c0), Some(ch)) = (self.val_cost.get(&e.value), Self::charge(s, e.index)) {
                    let ext = if *c0 == 0 { coster(self.cfg.coster, e.value) } else { 0 };
                    let exp = c0 + ext + if self.cfg.ignore_internal { 0 } else { self.item_size };
                    if ch != exp && !self.overwritten.contains(&e.value) && self.accepted.contains(&e.value) {
                        self.hit("C16", format!("key {} (value {}) is charged {} but given cost {} + coster {} + overhead gives {}", e.index, e.value, ch, c0, ext, exp));
                    }
                }
            }
        }
        // C05: after a cleanup tick at time T nothing that was due is left
        if tick_just_done && self.flags.quiescent_profile {
            for e in &s.store {
                if e.ttl_ns > 0 && (e.created_ns + e.ttl_ns) / NS + 1 <= self.tick_time / NS {
                    self.hit("C05", format!("key {} expired at {} is still resident after the cleanup tick at {}", e.index, e.created_ns + e.ttl_ns, self.tick_time));
                }
            }
        }
        // C08: every accepted value is in exactly one place
        {
            let resident: HashSet<u64> = s.store.iter().map(|e| e.value).collect();
            let acc: Vec<u64> = self.accepted.iter().copied().collect();
            for v in acc {
                let places = resident.contains(&v) as u32 + self.cb_count.get(&v).map_or(0, |l| l.len() as u32) + self.overwritten.contains(&v) as u32;
                if places == 0 && !self.before_clear.contains(&v) {
                    let collide = self.val_key.get(&v).map_or(false, |(i, _)| self.conf_seen.get(i).map_or(0, |c| c.len()) >= 2);
                    self.hit("C08", format!("accepted value {} is neither resident nor handed to a callback{}", v, if collide { " class=index-collision" } else { "" }));
                    self.accepted.remove(&v);
                }
                if places > 1 {
                    self.hit("C08", format!("value {} is in {} places (resident / callbacks / overwritten)", v, places));
                    self.accepted.remove(&v);
                }
            }
        }
        // C11: a completed clear with nothing inserted since leaves the cache empty
        if self.clear_returned_clean && !self.inserted_after_clear {
            let listed = s.buckets.iter().map(|(_, ks)| ks.len()).sum::<usize>();
            if !s.store.is_empty() || !s.policy.key_costs.is_empty() || s.policy.used != 0 || listed != 0 {
                self.hit("C11", format!("after clear() and quiescence the cache is not empty: {} entries, {} charges, used {}, {} buckets", s.store.len(), s.policy.key_costs.len(), s.policy.used, s.buckets.len()));
            }
        }
        // C17 / C15: conservation laws of the counters
        if let Some(m) = &s.metrics {
            let (hits, misses, kadd, _kupd, kev, cadd, cev, dropsets, _rej, dropg, keepg) = (m[0], m[1], m[2], m[3], m[4], m[5], m[6], m[7], m[8], m[9], m[10]);
            if self.flags.quiescent_profile && hits + misses != self.lookups_since_clear {
                self.hit("C17", format!("hits {} + misses {} differs from the {} lookups made since the last clear", hits, misses, self.lookups_since_clear));
            }
            if kadd.wrapping_sub(kev) != s.policy.key_costs.len() as u64 {
                self.hit("C17", format!("keys_added {} - keys_evicted {} differs from the {} charged entries", kadd, kev, s.policy.key_costs.len()));
            }
            if cadd.wrapping_sub(cev) != s.policy.used as u64 {
                self.hit("C17", format!("cost_added {} - cost_evicted {} differs from the charged total {}", cadd, cev, s.policy.used));
            }
            if self.flags.quiescent_profile && dropsets != self.drops_since_clear {
                self.hit("C17", format!("sets_dropped {} differs from the {} inserts of non-resident keys that returned false", dropsets, self.drops_since_clear));
            }
            if self.flags.quiescent_profile && !s.pol_closed && keepg + dropg + s.ring.len() as u64 != self.lookups_since_clear + self.ring_carry {
                self.hit("C15", format!("gets_kept {} + gets_dropped {} + {} buffered differs from the {} lookups since the last clear (+{} buffered at that time)", keepg, dropg, s.ring.len(), self.lookups_since_clear, self.ring_carry));
            }
            if let Some((c, _, _, _, b)) = &s.hist {
                if *c != b.iter().sum::<i64>() {
                    self.hit("C17", format!("histogram count {} differs from the sum of its buckets", c));
                }
                // every eviction of an entry admitted with metrics on adds one life-expectancy sample
                if self.flags.quiescent_profile && *c != self.evictions_since_clear {
                    self.hit("C17", format!("{} evictions (victims and swept entries) since the last clear but the life-expectancy histogram holds {} samples", self.evictions_since_clear, c));
                }
            }
        }
        let _ = now;
        self.prev = Some(s.clone());
    }

    pub fn closed_ok(&self) -> bool {
        self.closed_ok
    }

    /// the processor has just executed a clear: everything accepted so far may be dropped silently,
    /// and the counters restart
    pub fn clear_performed(&mut self, s: &CacheSnap<u64>) {
        let acc: Vec<u64> = self.accepted.iter().copied().collect();
        for v in acc {
            self.before_clear.insert(v);
        }
        // values of writes in flight may already sit in the store and be dropped with it
        let inflight: Vec<u64> = self.cur_op.values().filter_map(|o| match o {
            Op::Insert { val, .. } | Op::GetMutWrite { val, .. } => Some(*val),
            _ => None,
        }).collect();
        for v in inflight {
            self.before_clear.insert(v);
        }
        self.ring_carry = s.ring.len() as u64;
        self.lookups_since_clear = 0;
        self.drops_since_clear = 0;
        self.evictions_since_clear = 0;
        self.spec.clear();
    }

    /// C17: Metrics::ratio() against the counters of the same quiescent snapshot
    pub fn ratio(&mut self, s: &CacheSnap<u64>, ratio: Option<f64>) {
        match (&s.metrics, ratio) {
            (Some(m), Some(r)) => {
                let (h, mi) = (m[0], m[1]);
                let exp = if h == 0 && mi == 0 { 0.0 } else { (h as f64) / ((h + mi) as f64) };
                if r != exp {
                    self.hit("C17", format!("ratio() returned {} but hits {} / (hits {} + misses {}) is {}", r, h, h, mi, exp));
                }
            }
            (None, None) => {}
            (Some(_), None) => self.hit("C17", "ratio() returned None although metrics are enabled".to_string()),
            (None, Some(r)) => self.hit("C17", format!("ratio() returned {} although metrics are disabled", r)),
        }
    }

    /// C17: the public getters report the counters
    pub fn getters(&mut self, s: &CacheSnap<u64>, g: &[Option<u64>; 11]) {
        const NAMES: [&str; 11] = ["hits", "misses", "keys_added", "keys_updated", "keys_evicted", "cost_added", "cost_evicted",
                                   "sets_dropped", "sets_rejected", "gets_dropped", "gets_kept"];
        match &s.metrics {
            Some(m) => {
                for i in 0..11 {
                    if g[i] != Some(m[i]) {
                        self.hit("C17", format!("get_{}() returned {:?} but the counter holds {}", NAMES[i], g[i], m[i]));
                    }
                }
            }
            None => {
                if g.iter().any(|x| x.is_some()) {
                    self.hit("C17", "a metrics getter returned a value although metrics are disabled".to_string());
                }
            }
        }
    }

    pub fn hung(&mut self, line: &str) {
        let panics = crate::sched::PANICS.load(std::sync::atomic::Ordering::SeqCst);
        if panics > self.panics_seen {
            self.panics_seen = panics;
            let msg = crate::sched::LAST_PANIC.lock().map(|g| g.clone()).unwrap_or_default();
            self.hit("C20", format!("a worker panicked and never reached its next scheduling point: {} [{}]", line, msg));
        } else {
            self.hit("C20", format!("an actor did not reach its next scheduling point in time: {}", line));
        }
    }

    pub fn stuck(&mut self, a: usize, point: &str) {
        let op = self.cur_op.get(&a).map(|o| o.line()).unwrap_or_default();
        let prop = if op.starts_with("wait") { "C10" } else if op.starts_with("clear") { "C11" } else { "C12" };
        self.hit(prop, format!("{} never returned (client {} blocked at {})", op, a, point));
    }

    pub fn worker_alive_after_close(&mut self, which: &str) {
        self.hit("C12", format!("{} did not terminate after close() returned Ok", which));
    }
}

impl Drop for Mon {
    fn drop(&mut self) {
        self.flush();
    }
}
