//! Baton scheduler over the repository's yield points.
//!
//! Every actor — each client thread, the cache processor, the policy worker — stops at every
//! `stretto::verif::yield_point` and continues only when the scheduler grants it one segment.
//! Notes (`stretto::verif::note`) are collected per step.  With no controller installed (free
//! running mode) yield points return at once.
use std::cell::Cell;
use std::collections::HashMap;
use std::sync::{Arc, Condvar, Mutex};
use std::time::{Duration, Instant};

pub type Actor = u32;
pub const PROC: Actor = 100;
pub const POL: Actor = 101;

thread_local! {
    pub static ACTOR: Cell<Option<Actor>> = Cell::new(None);
    /// the case generation this thread belongs to (threads of finished cases run free)
    pub static GEN: Cell<Option<u64>> = Cell::new(None);
}

#[derive(Clone, Debug, PartialEq)]
pub enum Status {
    /// never seen
    Unknown,
    /// running (or blocked inside a library call)
    Running,
    /// parked at a yield point
    At(&'static str),
    /// client only: the operation returned this result
    Finished(String),
}

#[derive(Default)]
struct ActorState {
    status: Option<Status>,
    grants: u32,
    arrivals: u64,
}

#[derive(Default)]
struct Inner {
    actors: HashMap<Actor, ActorState>,
    notes: Vec<(Actor, &'static str, Vec<u64>)>,
    /// when false, yield points pass through
    controlled: bool,
    gen: u64,
    /// the global panic count when the current case began
    case_panics0: u64,
}

pub struct Sched {
    inner: Mutex<Inner>,
    cv: Condvar,
}

#[derive(Debug, Clone, PartialEq)]
pub enum Arrival {
    At(&'static str),
    Finished(String),
    /// nothing within the time allowed: the actor is inside a blocking call
    Blocked,
}

impl Sched {
    pub fn new() -> Arc<Sched> {
        Arc::new(Sched { inner: Mutex::new(Inner::default()), cv: Condvar::new() })
    }

    pub fn set_controlled(&self, on: bool) {
        let mut g = self.inner.lock().unwrap();
        g.controlled = on;
        if !on {
            // release everybody
            for a in g.actors.values_mut() {
                a.grants += 1_000_000;
            }
        }
        self.cv.notify_all();
    }

    /// starts a new case: threads that belong to earlier cases run free from now on
    pub fn reset(&self) {
        let mut g = self.inner.lock().unwrap();
        g.actors.clear();
        g.notes.clear();
        g.gen += 1;
        g.case_panics0 = PANICS.load(std::sync::atomic::Ordering::SeqCst);
        self.cv.notify_all();
    }

    pub fn gen(&self) -> u64 {
        self.inner.lock().unwrap().gen
    }

    fn actor_of(name: &'static str) -> Actor {
        if let Some(a) = ACTOR.with(|c| c.get()) {
            return a;
        }
        let a = if name.starts_with("proc:") || name.starts_with("tick:") {
            PROC
        } else if name.starts_with("pol:") {
            POL
        } else {
            // an unregistered thread inside client code: treat as free running
            u32::MAX
        };
        if a != u32::MAX {
            ACTOR.with(|c| c.set(Some(a)));
        }
        a
    }

    pub fn status(&self, a: Actor) -> Status {
        let g = self.inner.lock().unwrap();
        g.actors.get(&a).and_then(|s| s.status.clone()).unwrap_or(Status::Unknown)
    }

    pub fn arrivals(&self, a: Actor) -> u64 {
        let g = self.inner.lock().unwrap();
        g.actors.get(&a).map_or(0, |s| s.arrivals)
    }

    pub fn take_notes(&self) -> Vec<(Actor, &'static str, Vec<u64>)> {
        std::mem::take(&mut self.inner.lock().unwrap().notes)
    }

    /// called by a client thread when its operation has returned
    pub fn finished(&self, a: Actor, result: String) {
        let mut g = self.inner.lock().unwrap();
        // a client thread left over from an earlier case (abandoned after a stall, or still inside a
        // blocking call when its case ended) must not be taken for the current case's client
        if let Some(my_gen) = GEN.with(|c| c.get()) {
            if my_gen != g.gen {
                return;
            }
        }
        let s = g.actors.entry(a).or_default();
        s.status = Some(Status::Finished(result));
        s.arrivals += 1;
        self.cv.notify_all();
    }

    pub fn mark_running(&self, a: Actor) {
        let mut g = self.inner.lock().unwrap();
        let s = g.actors.entry(a).or_default();
        s.status = Some(Status::Running);
    }

    /// waits until actor `a` has arrived somewhere new (its arrival counter exceeds `seen`)
    pub fn wait_arrival(&self, a: Actor, seen: u64, timeout: Duration) -> Arrival {
        let deadline = Instant::now() + timeout;
        let mut panic_seen_at: Option<Instant> = None;
        let mut g = self.inner.lock().unwrap();
        loop {
            // a thread has panicked in this case (now or earlier): the case is lost anyway (the panic is
            // reported); give the actor a short grace period, then report it as not coming back instead
            // of sitting out the whole timeout
            if PANICS.load(std::sync::atomic::Ordering::SeqCst) > g.case_panics0 {
                match panic_seen_at {
                    None => panic_seen_at = Some(Instant::now()),
                    Some(t0) if t0.elapsed() > Duration::from_millis(1500) => {
                        if g.actors.get(&a).map_or(true, |s| s.arrivals <= seen) {
                            return Arrival::Blocked;
                        }
                    }
                    _ => {}
                }
            }
            if let Some(s) = g.actors.get(&a) {
                if s.arrivals > seen {
                    return match s.status.clone() {
                        Some(Status::At(p)) => Arrival::At(p),
                        Some(Status::Finished(r)) => Arrival::Finished(r),
                        _ => Arrival::Blocked,
                    };
                }
            }
            let now = Instant::now();
            if now >= deadline {
                return Arrival::Blocked;
            }
            let (g2, _) = self.cv.wait_timeout(g, (deadline - now).min(Duration::from_millis(100))).unwrap();
            g = g2;
        }
    }

    /// lets actor `a` (parked at a yield point) run its next segment
    pub fn grant(&self, a: Actor) -> u64 {
        let mut g = self.inner.lock().unwrap();
        let s = g.actors.entry(a).or_default();
        s.grants += 1;
        // released from now on: whoever looks at the status before the thread has actually woken up
        // must not take the yield point it is leaving for a fresh arrival
        s.status = Some(Status::Running);
        let seen = s.arrivals;
        self.cv.notify_all();
        seen
    }
}

/// number of panics seen by the process-wide panic hook, and the last message
pub static PANICS: std::sync::atomic::AtomicU64 = std::sync::atomic::AtomicU64::new(0);
pub static LAST_PANIC: std::sync::Mutex<String> = std::sync::Mutex::new(String::new());

/// Points between an operation's `is_closed` check and its send (scheduling points like the others in
/// the interleaved suites); the parallel `stress` suite always stretches them (`Chaos`).
pub fn is_check_window(name: &str) -> bool {
    name.ends_with(":after_check")
}

/// Hooks for the parallel `stress` suite: nobody is parked; every yield point is a place where the
/// calling thread may lose a little time (nothing, a spin, a yield or a short sleep, pseudo-randomly),
/// which stretches exactly the windows in which races between clients, processor and close() live.
pub struct Chaos(pub std::sync::atomic::AtomicU64);

impl stretto::verif::Hooks for Chaos {
    fn yield_point(&self, name: &'static str) {
        use std::sync::atomic::Ordering::Relaxed;
        let mut x = self.0.fetch_add(0x9E37_79B9_7F4A_7C15, Relaxed) ^ (name.len() as u64).wrapping_mul(0xD1B5_4A32_D192_ED03);
        x ^= x >> 33;
        x = x.wrapping_mul(0xFF51_AFD7_ED55_8CCD);
        x ^= x >> 29;
        // the check windows are what the interleaved suites cannot reach: always stretch them
        let k = if is_check_window(name) { 10 + x % 6 } else { x % 16 };
        match k {
            0..=9 => {}
            10..=12 => {
                for _ in 0..(x >> 40) % 4000 {
                    std::hint::spin_loop();
                }
            }
            13 | 14 => std::thread::yield_now(),
            _ => std::thread::sleep(std::time::Duration::from_micros((x >> 50) % 100)),
        }
    }
    fn note(&self, _name: &'static str, _args: &[u64]) {}
}

impl stretto::verif::Hooks for Sched {
    fn yield_point(&self, name: &'static str) {
        let a = Sched::actor_of(name);
        let mut g = self.inner.lock().unwrap();
        let my_gen = match GEN.with(|c| c.get()) {
            Some(x) => x,
            None => {
                GEN.with(|c| c.set(Some(g.gen)));
                g.gen
            }
        };
        if !g.controlled || a == u32::MAX || my_gen != g.gen {
            return;
        }
        {
            let s = g.actors.entry(a).or_default();
            s.status = Some(Status::At(name));
            s.arrivals += 1;
        }
        self.cv.notify_all();
        loop {
            if !g.controlled || my_gen != g.gen {
                return;
            }
            let s = g.actors.entry(a).or_default();
            if s.grants > 0 {
                s.grants -= 1;
                s.status = Some(Status::Running);
                return;
            }
            g = self.cv.wait(g).unwrap();
        }
    }

    fn note(&self, name: &'static str, args: &[u64]) {
        let a = Sched::actor_of(name);
        let mut g = self.inner.lock().unwrap();
        if let Some(my_gen) = GEN.with(|c| c.get()) {
            if my_gen != g.gen {
                return;
            }
        }
        g.notes.push((a, name, args.to_vec()));
        if name.ends_with(":exit") {
            // a worker leaving its loop is its last arrival
            let s = g.actors.entry(a).or_default();
            s.status = Some(Status::At(name));
            s.arrivals += 1;
            self.cv.notify_all();
        }
    }
}
