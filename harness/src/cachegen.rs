//! Generators for the cache-level suites and the replay of recorded cache traces.
use crate::cachesuite::{Case, CState, Config, Op};
use crate::rng::Rng;
use crate::sched::{Sched, POL, PROC};
use crate::trace::Trace;
use std::sync::Arc;

#[derive(Clone, Debug)]
pub struct Profile {
    pub name: &'static str,
    /// run every client operation to quiescence before the next one
    pub quiescent: bool,
    pub nclients: usize,
    /// 0 = sync only, 1 = async only, 2 = either
    pub flavour: u8,
    pub ttl: bool,
    pub collisions: bool,
    pub lifecycle: bool,   // clear / wait / close
    pub tight: bool,       // small max_cost: evictions and rejections
    pub small_buf: bool,
    pub validators: bool,
    pub costers: bool,
    pub metrics_on: bool,
    pub steps: (u64, u64),
}

pub const TTLS: [u64; 9] = [1, 500_000_000, 999_999_999, 1_000_000_000, 1_000_000_001, 1_500_000_000, 2_300_000_000, 59_000_000_000, 3_600_000_000_000];
pub const DTS: [u64; 10] = [1, 400_000_000, 500_000_000, 999_999_999, 1_000_000_000, 1_000_000_001, 1_700_000_000, 2_000_000_000, 2_500_000_000, 61_000_000_000];

pub fn profile(name: &str) -> Profile {
    let base = Profile {
        name: "cacheq", quiescent: true, nclients: 1, flavour: 0, ttl: true, collisions: false, lifecycle: false,
        tight: false, small_buf: false, validators: false, costers: false, metrics_on: true, steps: (20, 50),
    };
    match name {
        // quiescent, below capacity, TTL-heavy: C03 C04 C05
        "cacheq" => base,
        // the same on either flavour (drawn per case)
        "cacheqb" => Profile { name: "cacheqb", flavour: 2, ..base },
        // quiescent with evictions, costers, validators, metrics: C09 C16 C17 C15
        "cachet" => Profile { name: "cachet", tight: true, validators: true, costers: true, ..base },
        // colliding keys: C18
        "cachec" => Profile { name: "cachec", collisions: true, validators: true, ..base },
        // schedules: C02 C06 C08 C10 C11 C12
        "caches" => Profile { name: "caches", quiescent: false, nclients: 3, lifecycle: true, tight: true, small_buf: true, steps: (30, 90), ..base },
        // every configuration: C20
        "cachecfg" => Profile { name: "cachecfg", flavour: 2, tight: true, small_buf: true, lifecycle: true, steps: (25, 60), ..base },
        // async flavour of the above
        "cacheqa" => Profile { name: "cacheqa", flavour: 1, tight: true, validators: true, costers: true, lifecycle: true, ..base },
        // the same quiescent history on Cache and on AsyncCache, compared observation by observation: C19
        "cachepair" => Profile { name: "cachepair", tight: true, validators: true, costers: true, lifecycle: true, ..base },
        // lifecycle-heavy schedules: inserts racing wait / clear / close from three clients (C08, C10, C11, C12)
        "cachel" => Profile { name: "cachel", quiescent: false, nclients: 3, lifecycle: true, tight: true, small_buf: true, flavour: 2, steps: (25, 70), ..base },
        // races around the expiry sweep: a client writes the very key the sweeper is about to examine (C03 C04 C05)
        "cacher" => Profile { name: "cacher", quiescent: false, nclients: 2, flavour: 2, steps: (10, 28), ..base },
        "cachesa" => Profile { name: "cachesa", flavour: 1, quiescent: false, nclients: 3, lifecycle: true, tight: true, small_buf: true, steps: (30, 90), ..base },
        _ => panic!("unknown cache profile {}", name),
    }
}

fn gen_config(rng: &mut Rng, p: &Profile) -> Config {
    let is_async = match p.flavour { 0 => false, 1 => true, _ => rng.chance(1, 2) };
    let ignore_internal = rng.chance(2, 3);
    let max_cost = if p.name == "cachecfg" {
        *rng.pick(&[-5i64, 1, 2, 57, 100, 300])
    } else if p.tight {
        if ignore_internal { *rng.pick(&[6i64, 10, 15]) } else { *rng.pick(&[130i64, 200, 260]) }
    } else {
        100_000
    };
    Config {
        is_async,
        ctrs: if p.name == "cachecfg" { if rng.chance(1, 2) { 1 + rng.below(70) as usize } else { *rng.pick(&[1usize, 2, 3, 5, 7, 16, 33, 70, 127, 129, 1000]) } } else { *rng.pick(&[16usize, 64, 7]) },
        max_cost,
        buf_cap: if p.small_buf { *rng.pick(&[1usize, 2, 3, 16]) } else { 64 },
        buffer_items: *rng.pick(&[0usize, 1, 2, 3, 64]),
        metrics: if p.metrics_on { rng.chance(4, 5) } else { false },
        ignore_internal,
        validator: if p.validators { rng.below(4) as u8 } else { 0 },
        coster: if p.costers { rng.below(3) as u8 } else { 0 },
        now_ns: 1_700_000_000_000_000_000 + rng.below(3) * 500_000_000 + rng.below(1000),
        seeds: [rng.next(), rng.next(), rng.next(), rng.next()],
    }
}

pub fn cnew_line(c: &Config, item_size: usize) -> String {
    let (e, l) = crate::comp::bloom_entries_locs(c.ctrs, 0.01);
    format!(
        "cnew {} {} {} {} {} {} {} {} {} {} {} {} {} {} {} {} {}",
        c.is_async as u8, c.ctrs, c.max_cost, c.buf_cap, c.buffer_items, c.metrics as u8, c.ignore_internal as u8,
        item_size, c.validator, c.coster, c.now_ns, c.seeds[0], c.seeds[1], c.seeds[2], c.seeds[3], e, l
    )
}

pub fn parse_cnew(toks: &[&str]) -> Config {
    let u = |i: usize| toks[i].parse::<u64>().unwrap();
    Config {
        is_async: toks[1] == "1",
        ctrs: u(2) as usize,
        max_cost: toks[3].parse().unwrap(),
        buf_cap: u(4) as usize,
        buffer_items: u(5) as usize,
        metrics: toks[6] == "1",
        ignore_internal: toks[7] == "1",
        validator: u(9) as u8,
        coster: u(10) as u8,
        now_ns: u(11),
        seeds: [u(12), u(13), u(14), u(15)],
    }
}

struct Gen {
    next_val: u64,
    nkeys: u64,
}

impl Gen {
    /// the value of the next write: unique; usually the next of a rising series, but with validators
    /// in play sometimes one of a falling series far above it, so that "only newer values" validators
    /// see both newer and older candidates (and an argument swap is not invisible)
    fn value(&self, rng: &mut Rng, p: &Profile) -> u64 {
        if p.validators && rng.chance(1, 4) { 10_000_000_000 - self.next_val } else { self.next_val }
    }

    fn key(&self, rng: &mut Rng, p: &Profile) -> (u64, u64) {
        let idx = rng.range(1, self.nkeys);
        if p.collisions {
            // two keys per index, told apart by the conflict hash; sometimes the wildcard 0
            let c = *rng.pick(&[1u64, 2, 1, 2, 0]);
            (idx % 3 + 1, c)
        } else {
            (idx, 0)
        }
    }

    fn op(&mut self, rng: &mut Rng, p: &Profile, cfg: &Config) -> Op {
        let (idx, conf) = self.key(rng, p);
        let r = rng.below(100);
        let cost = if p.costers && rng.chance(1, 2) {
            0
        } else if p.tight {
            if cfg.ignore_internal { rng.range(1, 6) as i64 } else { rng.range(1, 40) as i64 }
        } else {
            rng.range(1, 9) as i64
        };
        let lifecycle = p.lifecycle;
        if p.name == "cachel" {
            return match r {
                0..=49 => {
                    self.next_val += 1;
                    Op::Insert { idx, conf, val: self.next_val, cost, ttl_ns: 0, only: false }
                }
                50..=57 => Op::Get { idx, conf },
                58..=63 => Op::Remove { idx, conf },
                64..=75 => Op::Wait,
                76..=87 => Op::Clear,
                _ => Op::Close,
            };
        }
        match r {
            0..=34 => {
                self.next_val += 1;
                let ttl = if p.ttl && rng.chance(2, 5) { *rng.pick(&TTLS) } else { 0 };
                Op::Insert { idx, conf, val: self.value(rng, p), cost, ttl_ns: ttl, only: false }
            }
            35..=41 => {
                self.next_val += 1;
                Op::Insert { idx, conf, val: self.value(rng, p), cost, ttl_ns: 0, only: true }
            }
            42..=61 => Op::Get { idx, conf },
            62..=66 => {
                self.next_val += 1;
                Op::GetMutWrite { idx, conf, val: self.next_val }
            }
            67..=73 => Op::GetTtl { idx, conf },
            74..=83 => Op::Remove { idx, conf },
            84..=87 => Op::Len,
            88..=89 => Op::MaxCost,
            90..=91 => {
                if p.tight { Op::UpdateMaxCost(cfg.max_cost / 2 + rng.below(cfg.max_cost.max(1) as u64) as i64) } else { Op::Len }
            }
            92..=95 => if lifecycle { Op::Wait } else { Op::Get { idx, conf } },
            96..=98 => if lifecycle { Op::Clear } else { Op::GetTtl { idx, conf } },
            _ => if lifecycle && rng.chance(1, 3) { Op::Close } else { Op::Len },
        }
    }
}

/// A directed schedule: an entry's TTL elapses, the ticker fires, the processor takes the due buckets
/// and stops in front of the first due key; meanwhile a client re-inserts that key (without TTL, or
/// with a new one), writes through get_mut or removes it; then everybody runs on in random order.
fn sweep_race(case: &mut Case, g: &mut Gen, rng: &mut Rng, t: &mut Trace, p: &Profile) {
    case.settle(t, rng);
    if case.hung || case.cstate.iter().any(|c| *c != CState::Idle) {
        return;
    }
    let (idx, conf) = g.key(rng, p);
    g.next_val += 1;
    let ttl = *rng.pick(&[1u64, 500_000_000, 1_000_000_000, 1_500_000_000]);
    case.start_op(t, 0, Op::Insert { idx, conf, val: g.next_val, cost: 1, ttl_ns: ttl, only: false });
    case.settle(t, rng);
    case.advance(t, *rng.pick(&[1_700_000_000u64, 2_500_000_000, 61_000_000_000]));
    case.tick(t);
    for _ in 0..6 {
        if case.hung || !case.proc_enabled() || case.proc_at() == "proc:tick:key" {
            break;
        }
        case.step_actor(t, PROC);
    }
    if case.hung || case.cstate[1] != CState::Idle {
        return;
    }
    g.next_val += 1;
    let op = match rng.below(5) {
        // (insert_if_present has no TTL variant)
        0 | 1 => Op::Insert { idx, conf, val: g.next_val, cost: 1, ttl_ns: 0, only: rng.chance(1, 3) },
        2 => Op::Insert { idx, conf, val: g.next_val, cost: 1, ttl_ns: 3_600_000_000_000, only: false },
        3 => Op::GetMutWrite { idx, conf, val: g.next_val },
        _ => Op::Remove { idx, conf },
    };
    case.start_op(t, 1, op);
    if rng.chance(2, 3) {
        // the client finishes before the sweeper looks at the key
        for _ in 0..8 {
            if case.hung || !matches!(case.cstate[1], CState::At(_)) || !case.enabled().contains(&1) {
                break;
            }
            case.step_actor(t, 1);
        }
    }
    case.settle(t, rng);
}

enum Act { Op(Op), Advance(u64), Tick }

/// C19: every case is a scripted quiescent history run twice, on Cache and on AsyncCache (both runs are
/// also compared with the model); the two runs' results, callbacks and quiescent snapshots must agree.
pub fn suite_pair(rng: &mut Rng, cases: u64, t: &mut Trace) {
    let p = profile("cachepair");
    let sched = Sched::new();
    stretto::verif::install(Some(sched.clone()));
    for id in 0..cases {
        let mut cfg = gen_config(rng, &p);
        let mut g = Gen { next_val: 1000 + id * 1000, nkeys: rng.range(3, 7) };
        let steps = rng.range(p.steps.0, p.steps.1);
        let mut script = Vec::new();
        for _ in 0..steps {
            let r = rng.below(100);
            if r < 78 { script.push(Act::Op(g.op(rng, &p, &cfg))); }
            else if r < 90 { script.push(Act::Advance(*rng.pick(&DTS))); }
            else { script.push(Act::Tick); }
        }
        let mut logs: Vec<Vec<String>> = Vec::new();
        for attempt in 0..2u64 {
            logs.clear();
            let mut stalled = false;
            for flavour in 0..2u64 {
                cfg.is_async = flavour == 1;
                let cid = id * 2 + flavour + attempt * 1_000_000;
                t.case(cid, p.name);
                let flags = crate::monitors::Flags { exact_map: false, collisions: false, quiescent_profile: true };
                let mut case = match Case::new(sched.clone(), cfg.clone(), 1, cid, flags) {
                    Ok(c) => c,
                    Err(e) => { t.step(&format!("cnew-failed {}", e)); logs.push(vec![format!("cnew-failed {}", e)]); continue; }
                };
                t.step(&cnew_line(&cfg, case.item_size));
                t.obs("ok");
                t.snap(&crate::cachesuite::str_snap(&crate::cachesuite::snapshot(&case.ck)));
                let mut srng = Rng::new(id * 7919 + 13);
                for a in &script {
                    if case.hung { break; }
                    match a {
                        Act::Op(op) => { case.start_op(t, 0, op.clone()); case.settle(t, &mut srng); }
                        Act::Advance(dt) => case.advance(t, *dt),
                        Act::Tick => { case.tick(t); case.settle(t, &mut srng); }
                    }
                }
                t.mark_nontrivial();
                if case.hung && attempt == 0 {
                    // a stall of the machine does not repeat, a genuine hang does: run the pair again
                    case.abandon();
                    stalled = true;
                    break;
                }
                let pl = case.pair_log.clone();
                case.finish(t, &mut srng);
                let v = pl.lock().unwrap().clone();
                logs.push(v);
            }
            if !stalled {
                break;
            }
        }
        if logs.len() == 2 && logs[0] != logs[1] {
            let n = logs[0].len().min(logs[1].len());
            let i = (0..n).find(|i| logs[0][*i] != logs[1][*i]).unwrap_or(n);
            let a = logs[0].get(i).cloned().unwrap_or_else(|| "<end>".into());
            let b = logs[1].get(i).cloned().unwrap_or_else(|| "<end>".into());
            let msg = format!("Cache and AsyncCache differ on the same quiescent history at observation {}: sync [{}] async [{}]", i, a, b);
            println!("MONITOR property=C19 case={} msg={}", id * 2 + 1, msg.replace(' ', "_").chars().take(600).collect::<String>());
        }
    }
    stretto::verif::install(None);
}

pub fn suite_cache(rng: &mut Rng, cases: u64, t: &mut Trace, pname: &str) {
    if pname == "cachepair" {
        return suite_pair(rng, cases, t);
    }
    let p = profile(pname);
    let sched = Sched::new();
    stretto::verif::install(Some(sched.clone()));
    let mut stalls = 0u64;
    let mut confirmed_hangs = 0u64;
    let mut id = 0u64;
    let mut attempt = 0u32;
    let mut rng_at_case = rng.clone();
    while id < cases {
        // a case whose actor did not arrive in time is run once more from the same PRNG state: a stall
        // of the machine does not repeat, a genuine hang does
        if attempt == 0 {
            rng_at_case = rng.clone();
        } else {
            *rng = rng_at_case.clone();
        }
        t.case(if attempt == 0 { id } else { id + 1_000_000 }, p.name);
        let panics_before = crate::sched::PANICS.load(std::sync::atomic::Ordering::SeqCst);
        let cfg = gen_config(rng, &p);
        let flags = crate::monitors::Flags {
            exact_map: p.name == "cacheq" || p.name == "cacheqb",
            collisions: p.collisions,
            quiescent_profile: p.quiescent,
        };
        let mut case = match Case::new(sched.clone(), cfg.clone(), p.nclients, id, flags) {
            Ok(c) => c,
            Err(e) => {
                t.step(&format!("cnew-failed {}", e));
                attempt = 0;
                id += 1;
                continue;
            }
        };
        t.step(&cnew_line(&cfg, case.item_size));
        t.obs("ok");
        t.snap(&crate::cachesuite::str_snap(&crate::cachesuite::snapshot(&case.ck)));
        let mut g = Gen { next_val: 1000 + id * 1000, nkeys: rng.range(3, 7) };
        let steps = rng.range(p.steps.0, p.steps.1);
        let mut n = 0;
        while n < steps && !case.hung {
            n += 1;
            let r = rng.below(100);
            if p.quiescent {
                if r < 78 {
                    let op = g.op(rng, &p, &cfg);
                    case.start_op(t, 0, op);
                    case.settle(t, rng);
                } else if r < 90 {
                    case.advance(t, *rng.pick(&DTS));
                } else {
                    case.tick(t);
                    case.settle(t, rng);
                }
            } else {
                if p.name == "cacher" && r >= 90 {
                    sweep_race(&mut case, &mut g, rng, t, &p);
                    continue;
                }
                let idle: Vec<usize> = (0..p.nclients).filter(|a| case.cstate[*a] == CState::Idle).collect();
                let en = case.enabled();
                if r < 38 && !idle.is_empty() {
                    let a = *rng.pick(&idle);
                    let op = g.op(rng, &p, &cfg);
                    case.start_op(t, a, op);
                } else if r < 90 && !en.is_empty() {
                    // bias towards the processor so that buffered work does get applied
                    let a = if en.contains(&PROC) && rng.chance(1, 2) { PROC } else { *rng.pick(&en) };
                    case.step_actor(t, a);
                } else if r < 94 {
                    case.advance(t, *rng.pick(&DTS));
                } else if r < 97 {
                    case.tick(t);
                } else if !idle.is_empty() {
                    let a = *rng.pick(&idle);
                    let op = g.op(rng, &p, &cfg);
                    case.start_op(t, a, op);
                }
                let _ = POL;
            }
        }
        t.mark_nontrivial();
        // (a worker that panicked is not a stall of the machine: nothing to run again)
        let panicked = crate::sched::PANICS.load(std::sync::atomic::Ordering::SeqCst) > panics_before;
        // (nor are hangs that keep coming back: after a few confirmed ones they are reported as they
        // come, and after a few more the suite stops early — every hang costs its whole timeout)
        if case.hung && attempt == 0 && !panicked && confirmed_hangs < 4 {
            case.mon.discard();
            case.abandon();
            stalls += 1;
            attempt = 1;
            continue;
        }
        if case.hung {
            confirmed_hangs += 1;
        }
        case.finish(t, rng);
        attempt = 0;
        id += 1;
        if confirmed_hangs >= 6 {
            eprintln!("note: {} cases hung for good; the suite stops after {} of {} cases", confirmed_hangs, id, cases);
            break;
        }
    }
    if stalls > 0 {
        eprintln!("note: {} case(s) stalled (an actor did not arrive in time) and were run again", stalls);
    }
    stretto::verif::install(None);
}

/// Re-executes a recorded cache trace: the same client operations, the same order of actor steps.
/// (Which `select!` arm the processor takes is its own choice again; the new trace records it.)
pub fn replay_cache(path: &str, t: &mut Trace) {
    let text = std::fs::read_to_string(path).expect("replay file");
    let sched = Sched::new();
    stretto::verif::install(Some(sched.clone()));
    let mut case: Option<Case> = None;
    let mut rng = Rng::new(1);
    // optional first line: `flags exact_map=0 collisions=0 quiescent=1`
    let mut fl = (false, true, false);
    for line in text.lines() {
        if let Some(rest) = line.strip_prefix("flags ") {
            for kv in rest.split(' ') {
                match kv {
                    "exact_map=1" => fl.0 = true,
                    "collisions=0" => fl.1 = false,
                    "quiescent=1" => fl.2 = true,
                    _ => {}
                }
            }
            continue;
        }
        if let Some(rest) = line.strip_prefix("case ") {
            if let Some(c) = case.take() {
                c.finish(t, &mut rng);
            }
            let mut it = rest.split(' ');
            let id: u64 = it.next().unwrap().parse().unwrap_or(0);
            t.case(id, it.next().unwrap_or("cacheq"));
        } else if let Some(opl) = line.strip_prefix("S ") {
            let toks: Vec<&str> = opl.split(' ').filter(|x| !x.is_empty()).collect();
            match toks[0] {
                "cnew" => {
                    let cfg = parse_cnew(&toks);
                    let flags = crate::monitors::Flags { exact_map: fl.0, collisions: fl.1, quiescent_profile: fl.2 };
                    match Case::new(sched.clone(), cfg.clone(), 4, 0, flags) {
                        Ok(c) => {
                            t.step(&cnew_line(&cfg, c.item_size));
                            t.obs("ok");
                            t.snap(&crate::cachesuite::str_snap(&crate::cachesuite::snapshot(&c.ck)));
                            case = Some(c);
                        }
                        Err(e) => t.step(&format!("cnew-failed {}", e)),
                    }
                }
                "op" => {
                    if let Some(c) = case.as_mut() {
                        let a: usize = toks[1].parse().unwrap();
                        if c.cstate[a] == CState::Idle && !c.hung {
                            c.start_op(t, a, Op::parse(&toks[2..]));
                        }
                    }
                }
                "cl" => {
                    if let Some(c) = case.as_mut() {
                        let a: usize = toks[1].parse().unwrap();
                        if let CState::At(_) = c.cstate[a] {
                            c.step_client(t, a);
                        }
                    }
                }
                "pr" | "prcl" => {
                    if let Some(c) = case.as_mut() {
                        if c.proc_enabled() {
                            c.step_proc(t);
                        }
                    }
                }
                "wk" => {
                    if let Some(c) = case.as_mut() {
                        if c.pol_enabled() {
                            c.step_worker(t);
                        }
                    }
                }
                "adv" => {
                    if let Some(c) = case.as_mut() {
                        c.advance(t, toks[1].parse().unwrap());
                    }
                }
                "tick" => {
                    if let Some(c) = case.as_mut() {
                        c.tick(t);
                    }
                }
                _ => {}
            }
        }
    }
    if let Some(c) = case.take() {
        c.finish(t, &mut rng);
    }
    t.mark_nontrivial();
    stretto::verif::install(None);
}
