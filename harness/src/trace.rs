//! Trace writer and per-run statistics shared by all suites.
use std::collections::{BTreeMap, HashSet};
use std::fs::File;
use std::io::{BufWriter, Write};

pub struct Trace {
    out: BufWriter<File>,
    pub cases: u64,
    pub steps: u64,
    pub op_hist: BTreeMap<String, u64>,
    pub tags: BTreeMap<String, u64>,
    /// hashes of the cases that were non-trivial by the suite's rule
    pub nontrivial: HashSet<u64>,
    pub samples: Vec<String>,
    cur: Vec<String>,
    cur_nontrivial: bool,
    cur_hash: u64,
    pub max_samples: usize,
}

fn fnv(h: u64, s: &str) -> u64 {
    let mut h = h;
    for b in s.bytes() {
        h ^= b as u64;
        h = h.wrapping_mul(0x100000001b3);
    }
    h
}

impl Trace {
    pub fn create(path: &str) -> Self {
        Trace {
            out: BufWriter::new(File::create(path).expect("trace file")),
            cases: 0,
            steps: 0,
            op_hist: BTreeMap::new(),
            tags: BTreeMap::new(),
            nontrivial: HashSet::new(),
            samples: Vec::new(),
            cur: Vec::new(),
            cur_nontrivial: false,
            cur_hash: 0xcbf29ce484222325,
            max_samples: 3,
        }
    }

    fn finish_case(&mut self) {
        if self.cur.is_empty() {
            return;
        }
        if self.cur_nontrivial {
            self.nontrivial.insert(self.cur_hash);
            if self.samples.len() < self.max_samples {
                let mut s = self.cur.join(" ; ");
                if s.len() > 1500 {
                    s.truncate(1500);
                    s.push_str(" ...");
                }
                self.samples.push(s);
            }
        }
        self.cur.clear();
        self.cur_nontrivial = false;
        self.cur_hash = 0xcbf29ce484222325;
    }

    pub fn case(&mut self, id: u64, suite: &str) {
        self.finish_case();
        self.cases += 1;
        writeln!(self.out, "case {} {}", id, suite).unwrap();
        self.cur.push(format!("case {} {}", id, suite));
    }

    pub fn step(&mut self, line: &str) {
        self.steps += 1;
        let op = line.split(' ').next().unwrap_or("").to_string();
        *self.op_hist.entry(op).or_insert(0) += 1;
        self.cur_hash = fnv(self.cur_hash, line);
        writeln!(self.out, "S {}", line).unwrap();
        self.cur.push(line.to_string());
    }

    pub fn obs(&mut self, s: &str) {
        self.cur_hash = fnv(self.cur_hash, s);
        writeln!(self.out, "O {}", s).unwrap();
        if let Some(last) = self.cur.last_mut() {
            last.push_str(" -> ");
            last.push_str(s);
        }
    }

    pub fn snap(&mut self, s: &str) {
        writeln!(self.out, "N {}", s).unwrap();
    }

    /// free-form line the model driver ignores unless it knows the prefix
    pub fn raw(&mut self, s: &str) {
        writeln!(self.out, "{}", s).unwrap();
    }

    pub fn mark_nontrivial(&mut self) {
        self.cur_nontrivial = true;
    }

    pub fn tag(&mut self, t: &str) {
        *self.tags.entry(t.to_string()).or_insert(0) += 1;
    }

    pub fn finish(mut self) -> Stats {
        self.finish_case();
        writeln!(self.out, "end").unwrap();
        self.out.flush().unwrap();
        Stats {
            cases: self.cases,
            steps: self.steps,
            op_hist: self.op_hist,
            tags: self.tags,
            distinct_nontrivial: self.nontrivial.len() as u64,
            samples: self.samples,
        }
    }
}

pub struct Stats {
    pub cases: u64,
    pub steps: u64,
    pub op_hist: BTreeMap<String, u64>,
    pub tags: BTreeMap<String, u64>,
    pub distinct_nontrivial: u64,
    pub samples: Vec<String>,
}

pub fn json_escape(s: &str) -> String {
    let mut o = String::new();
    for c in s.chars() {
        match c {
            '"' => o.push_str("\\\""),
            '\\' => o.push_str("\\\\"),
            '\n' => o.push_str("\\n"),
            c if (c as u32) < 0x20 => o.push_str(&format!("\\u{:04x}", c as u32)),
            c => o.push(c),
        }
    }
    o
}

impl Stats {
    pub fn to_json(&self, suite: &str, seed: u64, extra: &str) -> String {
        let hist = |m: &BTreeMap<String, u64>| {
            m.iter()
                .map(|(k, v)| format!("\"{}\":{}", json_escape(k), v))
                .collect::<Vec<_>>()
                .join(",")
        };
        let samples = self
            .samples
            .iter()
            .map(|s| format!("\"{}\"", json_escape(s)))
            .collect::<Vec<_>>()
            .join(",");
        format!(
            "{{\"suite\":\"{}\",\"seed\":{},\"cases\":{},\"steps\":{},\"distinct_nontrivial\":{},\"ops\":{{{}}},\"tags\":{{{}}},\"samples\":[{}]{}}}",
            suite,
            seed,
            self.cases,
            self.steps,
            self.distinct_nontrivial,
            hist(&self.op_hist),
            hist(&self.tags),
            samples,
            extra
        )
    }
}
