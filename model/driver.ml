(* driver.ml — replays implementation traces in the extracted Coq model and reports the first
   step at which the model and the implementation disagree (per case).  Hand-written glue:
   parsing, printing, comparison.  Part of the trusted base of the correspondence check. *)
module BZ = Z
open Model
open Conv

(* ---------- model state per suite ---------- *)
type pol_state = { p_s : slfu; p_t : tinylfu; p_m : metrics }

type state =
  | Empty
  | Row of row
  | Sk of sketch
  | Bl of bloom
  | Tl of tinylfu
  | Pol of pol_state
  | Cache of Cachedrv.t
  | Dead of string

exception Bad_trace of string

let est_of (t : tinylfu) : n -> z =
 fun k -> match tl_estimate t k with Some e -> Z.of_N e | None -> Zneg XH

let snap_of (st : state) : string =
  match st with
  | Empty -> "empty"
  | Row r -> hex_of_row r
  | Sk s -> str_sketch s
  | Bl b -> str_bloom b
  | Tl t -> str_tlfu t
  | Pol p -> Printf.sprintf "%s met=%s %s" (str_slfu p.p_s) (str_metrics p.p_m) (str_tlfu p.p_t)
  | Cache c -> Cachedrv.snap c
  | Dead why -> "dead:" ^ why

let seeds_of l = List.map n_of_string l

(* parse "niters [len k c ...]*" *)
let parse_oracle (toks : string list) : (n * z) list list =
  match toks with
  | [] -> []
  | nit :: rest ->
      let nit = int_of_string nit in
      let rec samples i toks acc =
        if i = 0 then List.rev acc
        else
          match toks with
          | len :: rest ->
              let len = int_of_string len in
              let rec pairs j toks acc2 =
                if j = 0 then (List.rev acc2, toks)
                else
                  match toks with
                  | k :: c :: r -> pairs (j - 1) r ((n_of_string k, z_of_string c) :: acc2)
                  | _ -> raise (Bad_trace "oracle pairs")
              in
              let ps, rest' = pairs len rest [] in
              samples (i - 1) rest' (ps :: acc)
          | [] -> raise (Bad_trace "oracle samples")
      in
      samples nit rest []

let str_add_result (inc : z) (r : add_result) : string =
  match r with
  | AddOutOfOracle -> "out-of-oracle"
  | AddIllegalOracle (_, sample, smp) ->
      Printf.sprintf "illegal-oracle sample=%s refill=%s" (str_pairs sample) (str_pairs smp)
  | AddPanic -> "panic"
  | AddDone (_, victims, added, log, _) ->
      Printf.sprintf "added=%d victims=%s inc=%s iters=%s"
        (if added then 1 else 0)
        (match victims with None -> "none" | Some v -> str_pairs v)
        (string_of_z inc)
        (if log = [] then "-" else
         String.concat ";"
           (List.map
              (fun e ->
                Printf.sprintf "%s,%s,%d,%s,%s" (string_of_n e.il_min_key) (string_of_z e.il_min_hits)
                  (int_of_nat e.il_min_id) (string_of_z e.il_min_cost) (string_of_z e.il_room))
              log))

(* one model step: returns (observation, new state) *)
let step (st : state) (op : string) (args : string list) : string * state =
  match st, op, args with
  (* ---- row ---- *)
  | _, "rnew", [ w ] -> ("-", Row (row_new (n_of_string w)))
  | Row r, "rinc", [ i ] -> (
      match row_inc r (n_of_string i) with Some r' -> ("-", Row r') | None -> ("panic", Dead "row_inc"))
  | Row r, "rget", [ i ] -> (
      match row_get r (n_of_string i) with Some v -> (string_of_n v, st) | None -> ("panic", Dead "row_get"))
  | Row r, "rreset", [] -> ("-", Row (row_reset r))
  | Row r, "rclear", [] -> ("-", Row (row_clear r))
  | _, "rset", bytes -> ("-", Row (List.map n_of_string bytes))
  (* ---- sketch ---- *)
  | _, "sknew", ctrs :: seeds -> (
      match sk_new (n_of_string ctrs) (seeds_of seeds) with
      | Some s -> ("ok", Sk s)
      | None -> ("err", Empty))
  | Sk s, "inc", [ h ] -> (
      match sk_inc s (n_of_string h) with Some s' -> ("-", Sk s') | None -> ("panic", Dead "sk_inc"))
  | Sk s, "est", [ h ] -> (
      match sk_est s (n_of_string h) with Some v -> (string_of_n v, st) | None -> ("panic", Dead "sk_est"))
  | Sk s, "reset", [] -> ("-", Sk (sk_reset s))
  | Sk s, "clear", [] -> ("-", Sk (sk_clear s))
  (* ---- bloom ---- *)
  | _, "blnew", entries :: locs :: _ -> ("-", Bl (bl_new (n_of_string entries) (n_of_string locs)))
  | Bl b, "add", [ h ] -> (
      match bl_add b (n_of_string h) with Some b' -> ("-", Bl b') | None -> ("panic", Dead "bl_add"))
  | Bl b, "has", [ h ] -> (
      match bl_contains b (n_of_string h) with
      | Some v -> ((if v then "1" else "0"), st)
      | None -> ("panic", Dead "bl_contains"))
  | Bl b, "coa", [ h ] -> (
      match bl_contains_or_add b (n_of_string h) with
      | Some (added, b') -> ((if added then "1" else "0"), Bl b')
      | None -> ("panic", Dead "bl_coa"))
  | Bl b, "reset", [] -> ("-", Bl (bl_reset b))
  | Bl b, "clear", [] -> ("-", Bl (bl_clear b))
  (* ---- tinylfu ---- *)
  | _, "tlnew", [ ctrs; s0; s1; s2; s3; entries; locs ] -> (
      match tl_new (n_of_string ctrs) (seeds_of [ s0; s1; s2; s3 ]) (n_of_string entries) (n_of_string locs) with
      | Some t -> ("ok", Tl t)
      | None -> ("err", Empty))
  | Tl t, "inc", [ h ] -> (
      match tl_increment t (n_of_string h) with Some t' -> ("-", Tl t') | None -> ("panic", Dead "tl_inc"))
  | Tl t, "incs", hs -> (
      match tl_increments t (List.map n_of_string hs) with
      | Some t' -> ("-", Tl t')
      | None -> ("panic", Dead "tl_incs"))
  | Tl t, "est", [ h ] -> (
      match tl_estimate t (n_of_string h) with
      | Some v -> (string_of_n v, st)
      | None -> ("panic", Dead "tl_est"))
  | Tl t, "clear", [] -> ("-", Tl (tl_clear t))
  (* ---- policy ---- *)
  | _, "polnew", [ ctrs; mc; s0; s1; s2; s3; entries; locs ] -> (
      match tl_new (n_of_string ctrs) (seeds_of [ s0; s1; s2; s3 ]) (n_of_string entries) (n_of_string locs) with
      | Some t -> ("ok", Pol { p_s = sl_new (z_of_string mc); p_t = t; p_m = metrics_zero })
      | None -> ("err", Empty))
  | Pol p, "tinc", [ h ] -> (
      match tl_increment p.p_t (n_of_string h) with
      | Some t' -> ("-", Pol { p with p_t = t' })
      | None -> ("panic", Dead "tl_inc"))
  | Pol p, "test", [ h ] -> (
      match tl_estimate p.p_t (n_of_string h) with
      | Some v -> (string_of_n v, st)
      | None -> ("panic", Dead "tl_est"))
  | Pol p, "add", k :: cost :: oracle -> (
      let k = n_of_string k and cost = z_of_string cost in
      let est = est_of p.p_t in
      let r = pol_add est (parse_oracle oracle) p.p_s k cost in
      let obs = str_add_result (est k) r in
      match r with
      | AddDone (s', _, _, _, mets) -> (obs, Pol { p with p_s = s'; p_m = m_adds p.p_m mets })
      | _ -> (obs, Dead obs))
  | Pol p, "upd", [ k; cost ] ->
      let (s', _), mets = sl_update p.p_s (n_of_string k) (z_of_string cost) in
      ("-", Pol { p with p_s = s'; p_m = m_adds p.p_m mets })
  | Pol p, "rem", [ k ] ->
      let s', mets = pol_remove p.p_s (n_of_string k) in
      ("-", Pol { p with p_s = s'; p_m = m_adds p.p_m mets })
  | Pol p, "clear", [] -> ("-", Pol { p with p_s = sl_clear p.p_s; p_t = tl_clear p.p_t })
  | Pol p, "setmax", [ mc ] -> ("-", Pol { p with p_s = sl_set_max p.p_s (z_of_string mc) })
  | Pol p, "cost", [ k ] -> (
      match aget (n_of_string k) p.p_s.sl_kc with Some c -> (string_of_z c, st) | None -> ("-1", st))
  | Pol p, "cap", [] -> (string_of_z (Z.sub p.p_s.sl_max p.p_s.sl_used), st)
  (* ---- keys / builder validation ---- *)
  | _, "tkey", [ kind; x ] ->
      let k =
        match kind with
        | "bool" -> KBool | "u8" -> KU8 | "u16" -> KU16 | "u32" -> KU32 | "u64" -> KU64 | "usize" -> KUsize
        | "i8" -> KI8 | "i16" -> KI16 | "i32" -> KI32 | "i64" -> KI64 | "isize" -> KIsize
        | _ -> raise (Bad_trace "kind")
      in
      let x = z_of_string x in
      (Printf.sprintf "%s %s" (string_of_z (transparent_index k x)) (string_of_z (transparent_conflict k x)), st)
  | _, "validate", [ nc; mc; bs ] -> (
      match validate (n_of_string nc) (z_of_string mc) (n_of_string bs) with
      | None -> ("ok", st)
      | Some InvalidNumCounters -> ("InvalidNumCounters", st)
      | Some InvalidMaxCost -> ("InvalidMaxCost", st)
      | Some InvalidBufferSize -> ("InvalidBufferSize", st))
  (* ---- cache ---- *)
  | _, "cnew", _ -> let o, c = Cachedrv.create args in (o, Cache c)
  | Cache c, _, _ -> let o, c' = Cachedrv.step c op args in (o, Cache c')
  | Dead _, _, _ -> ("dead", st)
  | _ -> raise (Bad_trace (Printf.sprintf "unknown op %s/%d" op (List.length args)))

(* ---------- main loop ---------- *)
let split_ws s = List.filter (fun x -> x <> "") (String.split_on_char ' ' s)

let () =
  let file = Sys.argv.(1) in
  let ic = if file = "-" then stdin else open_in file in
  let cases = ref 0 and steps = ref 0 and diverged = ref 0 in
  let cur_case = ref "" and cur_suite = ref "" in
  let st = ref Empty in
  let step_no = ref 0 in
  let pending_obs = ref "" and pending_snap = ref "" and pending_op = ref "" in
  let skipping = ref false in
  let diverge kind model impl =
    incr diverged;
    skipping := true;
    Printf.printf "DIVERGE case=%s suite=%s step=%d kind=%s op=[%s] model=[%s] impl=[%s]\n" !cur_case
      !cur_suite !step_no kind !pending_op model impl
  in
  (try
     while true do
       let line = input_line ic in
       let n = String.length line in
       if n = 0 then ()
       else if line.[0] = '#' then ()   (* comments appended to replay files *)
       else if n >= 6 && String.sub line 0 6 = "flags " then ()
       else if n >= 5 && String.sub line 0 5 = "case " then begin
         (match split_ws line with
         | [ _; id; suite ] ->
             cur_case := id;
             cur_suite := suite
         | _ -> raise (Bad_trace line));
         incr cases;
         st := Empty;
         step_no := 0;
         skipping := false
       end
       else if !skipping then ()
       else if line.[0] = 'S' then begin
         incr steps;
         incr step_no;
         pending_op := String.sub line 2 (n - 2);
         match split_ws !pending_op with
         | op :: args -> (
             try
               let o, st' = step !st op args in
               pending_obs := o;
               st := st';
               pending_snap := snap_of st'
             with
             | Bad_trace m -> diverge "trace" m ""
             | Cachedrv.Bad m -> diverge "trace" m "")
         | [] -> raise (Bad_trace line)
       end
       else if line.[0] = 'O' then begin
         let impl = String.sub line 2 (n - 2) in
         (* the harness gave up waiting for this actor: there is no observation to compare; the stall or
            hang is reported by the harness itself (the case is run again, a repeated hang is a monitor hit) *)
         if String.length impl >= 7 && String.sub impl 0 7 = "at=HUNG" then skipping := true
         else if impl <> !pending_obs then diverge "obs" !pending_obs impl
       end
       else if line.[0] = 'N' then begin
         let impl = String.sub line 2 (n - 2) in
         if impl <> !pending_snap then diverge "state" !pending_snap impl
       end
       else if line = "end" then ()
       else raise (Bad_trace line)
     done
   with End_of_file -> ());
  Printf.printf "SUMMARY cases=%d steps=%d diverged=%d\n" !cases !steps !diverged;
  exit (if !diverged > 0 then 3 else 0)
