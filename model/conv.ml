(* conv.ml — number conversion between the extracted positive/N/Z and zarith, and the printers
   shared by driver.ml and cachedrv.ml (they must match the harness byte for byte). *)
module BZ = Z
open Model

(* ---------- number conversion (extracted positive/N/Z  <->  zarith) ---------- *)
let rec pos_of_bz (x : BZ.t) : positive =
  if BZ.equal x BZ.one then XH
  else if BZ.testbit x 0 then XI (pos_of_bz (BZ.shift_right x 1))
  else XO (pos_of_bz (BZ.shift_right x 1))

let n_of_bz (x : BZ.t) : n = if BZ.sign x = 0 then N0 else Npos (pos_of_bz x)
let z_of_bz (x : BZ.t) : z =
  if BZ.sign x = 0 then Z0 else if BZ.sign x > 0 then Zpos (pos_of_bz x) else Zneg (pos_of_bz (BZ.neg x))

let rec bz_of_pos (p : positive) : BZ.t =
  match p with
  | XH -> BZ.one
  | XO q -> BZ.shift_left (bz_of_pos q) 1
  | XI q -> BZ.succ (BZ.shift_left (bz_of_pos q) 1)

let bz_of_n = function N0 -> BZ.zero | Npos p -> bz_of_pos p
let bz_of_z = function Z0 -> BZ.zero | Zpos p -> bz_of_pos p | Zneg p -> BZ.neg (bz_of_pos p)

let n_of_string s = n_of_bz (BZ.of_string s)
let z_of_string s = z_of_bz (BZ.of_string s)
let string_of_n x = BZ.to_string (bz_of_n x)
let string_of_z x = BZ.to_string (bz_of_z x)
let int_of_n x = BZ.to_int (bz_of_n x)
let n_of_int i = n_of_bz (BZ.of_int i)
let rec nat_of_int i = if i <= 0 then O else S (nat_of_int (i - 1))
let rec int_of_nat = function O -> 0 | S m -> 1 + int_of_nat m

(* ---------- printing (must match the harness byte for byte) ---------- *)
let hex_of_row (r : n list) : string =
  String.concat "" (List.map (fun b -> Printf.sprintf "%02x" (int_of_n b)) r)

let str_sketch (s : sketch) : string =
  Printf.sprintf "mask=%s rows=%s" (string_of_n s.sk_mask)
    (String.concat "," (List.map hex_of_row s.sk_rows))

let str_bloom (b : bloom) : string =
  Printf.sprintf "size=%s exp=%s locs=%s shift=%s words=%s" (string_of_n b.bl_size)
    (string_of_n b.bl_exp) (string_of_n b.bl_locs) (string_of_n b.bl_shift)
    (String.concat "," (List.map string_of_n b.bl_words))

let str_tlfu (t : tinylfu) : string =
  Printf.sprintf "samples=%s w=%s %s %s" (string_of_n t.tl_samples) (string_of_n t.tl_w)
    (str_sketch t.tl_sk) (str_bloom t.tl_bl)

let str_kc (kc : z amap) : string =
  let l = asort kc in
  if l = [] then "-" else
  String.concat "," (List.map (fun (k, c) -> string_of_n k ^ ":" ^ string_of_z c) l)

let str_slfu (s : slfu) : string =
  Printf.sprintf "max=%s used=%s kc=%s" (string_of_z s.sl_max) (string_of_z s.sl_used) (str_kc s.sl_kc)

let str_metrics (m : metrics) : string = String.concat "," (List.map string_of_n m)

let str_pairs (l : (n * z) list) : string =
  if l = [] then "-" else
  String.concat "," (List.map (fun (k, c) -> string_of_n k ^ ":" ^ string_of_z c) l)

