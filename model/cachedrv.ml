(* cachedrv.ml — glue for the cache-level suite (placeholder until Cache.v is extracted). *)
type t = unit
exception Bad of string
let create (_ : string list) : string * t = raise (Bad "cache suite not built")
let step (_ : t) (_ : string) (_ : string list) : string * t = raise (Bad "cache suite not built")
let snap (_ : t) : string = ""
