(* cachedrv.ml — glue between cache-level traces and the extracted cache model (Cache.v). *)
module BZ = Z
open Model
open Conv

type t = { cfg : cfg; st : cstate; dead : string option }

exception Bad of string

let validator_of (m : int) : n -> n -> bool =
 fun prev curr ->
  match m with
  | 0 -> true
  | 1 -> false
  | 2 -> BZ.gt (bz_of_n curr) (bz_of_n prev)
  | _ -> not (BZ.equal (BZ.rem (bz_of_n curr) (BZ.of_int 3)) (BZ.rem (bz_of_n prev) (BZ.of_int 3)))

let coster_of (m : int) : n -> z =
 fun v ->
  match m with
  | 0 -> Z0
  | 1 -> z_of_bz (BZ.succ (BZ.rem (bz_of_n v) (BZ.of_int 5)))
  | _ -> z_of_bz (BZ.of_int 7)

let create (args : string list) : string * t =
  match args with
  | [ is_async; ctrs; max_cost; buf_cap; buffer_items; metrics; ignore_internal; item_size; vmode; cmode; now;
      s0; s1; s2; s3; entries; locs ] -> (
      let cfg =
        { c_ignore_internal = ignore_internal = "1";
          c_item_size = z_of_string item_size;
          c_buf_cap = n_of_string buf_cap;
          c_buffer_items = n_of_string buffer_items;
          c_metrics = metrics = "1";
          c_validator = validator_of (int_of_string vmode);
          c_coster = coster_of (int_of_string cmode);
          c_async = is_async = "1" }
      in
      match tl_new (n_of_string ctrs) (List.map n_of_string [ s0; s1; s2; s3 ]) (n_of_string entries) (n_of_string locs) with
      | Some t -> ("ok", { cfg; st = cinit cfg (z_of_string max_cost) t (n_of_string now); dead = None })
      | None -> raise (Bad "tl_new failed"))
  | _ -> raise (Bad "cnew arity")

let str_point = function
  | PtFinish -> "finish"
  | PtInsBeforeSend -> "ins:before_send"
  | PtGetAfterPush -> "get:after_push"
  | PtRemBeforeSend -> "rem:before_send"
  | PtWaitAfterCheck -> "wait:after_check"
  | PtClearAfterCheck -> "clear:after_check"
  | PtWaitAfterSend -> "wait:after_send"
  | PtWaitBeforeBlock -> "wait:before_block"
  | PtClearBeforeBlock -> "clear:before_block"
  | PtCloseAfterFlag -> "close:after_flag"
  | PtCloseBeforeStop -> "close:before_stop"
  | PtCloseBeforePolicy -> "close:before_policy"
  | PtPolCloseBeforeStop -> "polclose:before_stop"
  | PtPolCloseAfterStop -> "polclose:after_stop"
  | PtProcLoop -> "proc:loop"
  | PtProcNewAfterAdd -> "proc:new:after_add"
  | PtProcNewAfterStore -> "proc:new:after_store"
  | PtProcNewVictim -> "proc:new:victim"
  | PtProcDelAfterPolicy -> "proc:del:after_policy"
  | PtProcClearAfterDrain -> "proc:clear:after_drain"
  | PtProcClearAfterPolicy -> "proc:clear:after_policy"
  | PtProcClearAfterStore -> "proc:clear:after_store"
  | PtProcTickKey -> "proc:tick:key"
  | PtProcTickAfterPolicy -> "proc:tick:after_policy"
  | PtProcExit -> "proc:exit"
  | PtPolLoop -> "pol:loop"
  | PtPolExit -> "pol:exit"
  | PtBlocked -> "blocked"

let str_cb = function
  | CbExit v -> "exit:" ^ string_of_n v
  | CbEvict (k, c, v, cost) -> Printf.sprintf "evict:%s:%s:%s:%s" (string_of_n k) (string_of_n c) (string_of_n v) (string_of_z cost)
  | CbReject (k, c, v, cost) -> Printf.sprintf "reject:%s:%s:%s:%s" (string_of_n k) (string_of_n c) (string_of_n v) (string_of_z cost)

let str_ttl = function TtlInf -> "inf" | TtlNs x -> string_of_n x

let str_res = function
  | RNone -> "-"
  | RBool b -> if b then "true" else "false"
  | RGet None -> "get:none"
  | RGet (Some (v, d)) -> Printf.sprintf "get:%s:%s" (string_of_n v) (str_ttl d)
  | RGetMut None -> "getmut:none"
  | RGetMut (Some v) -> "getmut:" ^ string_of_n v
  | RTtl None -> "ttl:none"
  | RTtl (Some d) -> "ttl:" ^ str_ttl d
  | RUnit ok -> if ok then "ok" else "err"
  | RZ x -> "z:" ^ string_of_z x
  | RN x -> "n:" ^ string_of_n x

let str_out (o : out) : string =
  Printf.sprintf "at=%s cb=%s res=%s" (str_point o.o_at)
    (if o.o_cbs = [] then "-" else String.concat "," (List.map str_cb o.o_cbs))
    (str_res o.o_res)

let snap (c : t) : string =
  match c.dead with
  | Some why -> "dead:" ^ why
  | None ->
      let st = c.st in
      let store =
        match asort st.s_store.st_map with
        | [] -> "-"
        | l ->
            String.concat ";"
              (List.map
                 (fun (k, e) ->
                   Printf.sprintf "%s:%s:%s:%s:%s" (string_of_n k) (string_of_n e.e_conflict) (string_of_n e.e_val)
                     (string_of_n e.e_exp.t_created) (string_of_n e.e_exp.t_d))
                 l)
      in
      let em =
        match asort st.s_store.st_em with
        | [] -> "-"
        | l ->
            String.concat ";"
              (List.map
                 (fun (b, ks) ->
                   Printf.sprintf "%s[%s]" (string_of_n b)
                     (String.concat "," (List.map (fun (k, cf) -> string_of_n k ^ ":" ^ string_of_n cf) (asort ks))))
                 l)
      in
      let met = if c.cfg.c_metrics then str_metrics st.s_mets else "off" in
      let hist =
        if c.cfg.c_metrics then
          let h = st.s_hist in
          Printf.sprintf "%s,%s,%s,%s,%s" (string_of_z h.h_count) (string_of_z h.h_sum) (string_of_z h.h_min)
            (string_of_z h.h_max) (String.concat "/" (List.map string_of_z h.h_buckets))
        else "off" in
      Printf.sprintf "now=%s closed=%d polclosed=%d buf=%d pq=%d ring=%s store=%s em=%s %s met=%s hist=%s %s"
        (string_of_n st.s_now)
        (if st.s_closed then 1 else 0)
        (if st.s_pol_closed then 1 else 0)
        (List.length st.s_buf) (List.length st.s_pqueue)
        (if st.s_ring = [] then "-" else String.concat "," (List.map string_of_n st.s_ring))
        store em (str_slfu st.s_slfu) met hist (str_tlfu st.s_tlfu)

let parse_op (toks : string list) : cop =
  match toks with
  | [ "insert"; idx; conf; v; cost; ttl; only ] ->
      OInsert (n_of_string idx, n_of_string conf, n_of_string v, z_of_string cost, n_of_string ttl, only = "1")
  | [ "get"; idx; conf ] -> OGet (n_of_string idx, n_of_string conf)
  | [ "getmut"; idx; conf; v ] -> OGetMutWrite (n_of_string idx, n_of_string conf, n_of_string v)
  | [ "getttl"; idx; conf ] -> OGetTtl (n_of_string idx, n_of_string conf)
  | [ "remove"; idx; conf ] -> ORemove (n_of_string idx, n_of_string conf)
  | [ "wait" ] -> OWait
  | [ "clear" ] -> OClear
  | [ "close" ] -> OClose
  | [ "maxcost" ] -> OMaxCost
  | [ "setmax"; mc ] -> OUpdateMaxCost (z_of_string mc)
  | [ "len" ] -> OLen
  | _ -> raise (Bad ("op: " ^ String.concat " " toks))

let rec parse_samples (n : int) (toks : string list) : (n * z) list list =
  if n = 0 then []
  else
    match toks with
    | len :: rest ->
        let len = int_of_string len in
        let rec pairs j toks acc =
          if j = 0 then (List.rev acc, toks)
          else match toks with k :: c :: r -> pairs (j - 1) r ((n_of_string k, z_of_string c) :: acc) | _ -> raise (Bad "oracle")
        in
        let ps, rest' = pairs len rest [] in
        ps :: parse_samples (n - 1) rest'
    | [] -> raise (Bad "oracle")

let arm_of = function
  | "item" -> Some ArmItem
  | "clear" -> Some ArmClear
  | "tick" -> Some ArmTick
  | "stop" -> Some ArmStop
  | _ -> None

let parse_label (op : string) (args : string list) : label =
  match op, args with
  | "op", a :: rest -> LOp (n_of_string a, parse_op rest)
  | "cl", [ a ] -> LClient (n_of_string a)
  | "pr", arm :: tk :: nor :: rest ->
      LProc { h_arm = arm_of arm; h_oracle = parse_samples (int_of_string nor) rest;
              h_tick_key = (if tk = "-" then None else Some (n_of_string tk)) }
  | "wk", [ arm ] -> LWorker { h_arm = arm_of arm; h_oracle = []; h_tick_key = None }
  | "adv", [ dt ] -> LAdvance (n_of_string dt)
  | "tick", [] -> LTick
  | _ -> raise (Bad ("label: " ^ op))

let step (c : t) (op : string) (args : string list) : string * t =
  match c.dead with
  | Some _ -> ("dead", c)
  | None ->
      if op = "stuck" then
        (* the implementation reports a client that never came back: can the model's client move? *)
        match args with
        | a :: _ -> (
            match continue_client c.cfg c.st (n_of_string a) with
            | StepOk _ -> ("stuck:but-enabled-in-model", { c with dead = Some "impl stuck, model enabled" })
            | _ -> ("stuck:blocked-in-model-too", c))
        | [] -> raise (Bad "stuck")
      else if op = "prcl" then
        (* one processor step that makes room in the insert buffer (or exits), and the client whose
           remove() was waiting inside the send coming back: observed together, because the sender
           wakes up on its own *)
        match args with
        | a :: rest -> (
            match cstep c.cfg c.st (parse_label "pr" rest) with
            | StepOk (st1, o1) -> (
                match cstep c.cfg st1 (LClient (n_of_string a)) with
                | StepOk (st2, o2) ->
                    (str_out { o_at = o1.o_at; o_cbs = o1.o_cbs @ o2.o_cbs; o_res = o2.o_res }, { c with st = st2 })
                | StepBlocked -> ("model-blocked", { c with dead = Some "model-blocked" })
                | StepIllegal w -> ("model-illegal:" ^ string_of_n w, { c with dead = Some "model-illegal" })
                | StepPanic w -> ("model-panic:" ^ string_of_n w, { c with dead = Some "model-panic" }))
            | StepBlocked -> ("model-blocked", { c with dead = Some "model-blocked" })
            | StepIllegal w -> ("model-illegal:" ^ string_of_n w, { c with dead = Some "model-illegal" })
            | StepPanic w -> ("model-panic:" ^ string_of_n w, { c with dead = Some "model-panic" }))
        | [] -> raise (Bad "prcl")
      else
        let l = parse_label op args in
        match cstep c.cfg c.st l with
        | StepOk (st', o) -> (str_out o, { c with st = st' })
        | StepBlocked -> ("model-blocked", { c with dead = Some "model-blocked" })
        | StepIllegal w -> ("model-illegal:" ^ string_of_n w, { c with dead = Some "model-illegal" })
        | StepPanic w -> ("model-panic:" ^ string_of_n w, { c with dead = Some "model-panic" })
